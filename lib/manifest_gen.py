#!/usr/bin/env python3
"""Regenerates MANIFEST.json from the table below (kept in one place so it stays valid)."""
import json
import os
import sys

HERE = os.path.dirname(os.path.dirname(os.path.abspath(__file__)))

_PROVED = {
 "C05": "Proved (Props/C05.v): hasPathPrefix is component-wise containment (C05_has_path_prefix_iff); every name prefixPath accepts maps to a path at or below the prefix (C05_prefix_path_within); every call the PrefixFS transformer forwards names only paths within the prefix, both names of Rename included (C05_calls_confined); an accepted Symlink target resolves lexically within the prefix (C05_symlink_target_within). Lexical: what the kernel does with symlinks already in the tree is outside (C16/K-findings). ",
 "C06": "Proved (Props/C06.v): isHidden decides exactly 'at or below a hidden path', component-wise (C06_is_hidden_spec); every single-name method, Rename and Symlink on every spelling of such a name is rejected with the documented error before any underlying call (C06_lexical_*). 'By any route' (through symlinks in the tree) is the recorded finding D9. ",
 "C07": "Proved (Props/C07.v, arbitrary filesystems): a Rollback with nothing tracked issues no call and changes nothing; whenever Rollback runs to its end nothing is tracked; BackupFS has no state besides baseInfos (struct fields from the AST). 'Backup filesystem as before' is decided by the oracle and, for covered histories, by the C01 theorems (backup empty after Rollback). ",
 "C09": "Proved (Props/C09.v, arbitrary filesystems): every error of Rollback is ErrRollbackFailed; restoreFile/restoreSymlink propagate failures. Props/C09_faults.v (over the laws + fault laws, closed for the three layerings): for EVERY fault plan Rollback returns nil only if the base view is restored, the backup empty and nothing tracked; under a single-fault plan histories of covered operations keep the invariant and Rollback returns nil once the fault is spent. Histories outside 'covered': fault enumeration. ",
 "C10": "Proved (Props/C10.v): the lock table regenerated from the Go AST satisfies the lock discipline (kernel-evaluated), each exported method either locks first with a deferred unlock or touches neither baseInfos nor a mutating method (C10_classification), and under that discipline every interleaving of any number of threads is a serial execution of the locked operations (C10_serialisable). Data races at the Go memory-model level: race detector only (partial). Writes through returned handles lie outside the lock by design (K7); dynamically every other primitive call of a held operation (identified as fs.method by the harness) must be made under the lock. ",
 "C11": "Proved (Props/C11.v): for every directory content, hidden set and sequence of Readdir/Readdirnames counts the listing returns exactly the visible entries, each once, no error (C11_listing, C11_visible_spec); renaming an ancestor of a hidden path is refused lexically. HiddenFS.RemoveAll effect theorem (C11_removeall_effect, concrete OS model, any hidden set, symlinks in the subtree allowed): hidden entries untouched, lexical ancestor directories of hidden paths kept with mode/owner, everything else in the subtree gone, nothing outside changed; names reached through symlinks are outside (D9). ",
 "C12": "Proved (Props/C12.v): every FileInfo accessor survives toFInfo/JSON (C12_reload_info), Map() after a reload equals Map() before (C12_reload_spec), a restart at any point of a history changes nothing observable under names_ok (C12_restart_identity). encoding/json itself is not modelled (reload_info abstracts it away); it is exercised by the implementation-only round-trip stream. ",
 "C14": "Proved (Props/C14.v): for absolute prefixes prefixPath is Join(prefix, Clean('/'+name)); every forwarded call has exactly the re-rooted arguments; File.Name/FileInfo.Name report the virtual name; Readlink trims the prefix from targets inside it and Symlink-then-Readlink returns the cleaned target. ",
 "C15": "Proved (Props/C15.v): every method on a lexically non-hidden comparable name is forwarded as exactly one call with unchanged arguments (Create/Open as OpenFile with their flags), siblings sharing a string prefix are not hidden, an empty hidden set is the identity. Effects on real trees: twin runs; listings of directories without hidden entries batch by batch. ",
 "C18": "Proved (Props/C18.v): on Linux (empty volume) every VolumeFS call is forwarded with Clean'ed arguments, identity on cleaned names, idempotent, Readlink cleans the target. The Windows half (drive letters) is not executable here and is not claimed beyond the model of the string functions. ",
 "C19": "Proved (Props/C19.v): the depth order is a strict total order refining 'ancestor before descendant' (C19_less_*), both sorts return the unique sorted permutation whatever the input order (C19_perm_independent_*), IterateDirTree visits exactly the ancestor chain root-first and stops where told (C19_iterate, C19_iterate_stop, C19_chain_spec). ",
 "C01": "Proved (Props/C01.v, no axioms): for any two filesystems satisfying the laws of Spec/Laws.v, Spec/Laws2.v w.r.t. abstract views, any history of covered operations (every operation of the API except ForceBackup, on resolved names, not following a final symlink, Rename of a childless source, RemoveAll not of the root, no type change of a tracked path; initial tree: files below the model's 128 MiB copy budget, symlink targets clean and acceptable to both filesystems, backup initially empty) followed by Rollback returns nil, restores the base view (root metadata and directory timestamps aside) and empties backup and bookkeeping (C01_rollback_restores_partial); Rollback from any state satisfying the invariant (C01_rollback_from_invariant). The unrestricted statement is refuted in the model (C01_full_refuted_D14 = recorded finding). The laws are proved for the concrete PrefixFS-over-OS model with two disjoint prefixes (Proofs/LawsOsfs*.v): C01_concrete_partial is a closed theorem about cfg_base/cfg_backup of the layering 'generic p q' that the correspondence check runs against the code; also closed for the documented layering 'HiddenFS hiding the backup location inside a PrefixFS base' (C01_documented_partial, Proofs/LawsHidden*.v; api_laws generalised by the predicates hid/anc); and for the layering of the constructors New/NewWithFS, HiddenFS directly over the OS filesystem (C01_new_partial, Proofs/LawsRoot*.v, LawsNew*.v): the theorems are closed for the layerings of all five configurations the correspondence check runs. ",
 "C03": "Proved (Props/C03.v, for arbitrary filesystems, every world): Lstat/Stat/Readlink/Open/OpenFile(O_RDONLY) through BackupFS are exactly one call of the base, invoke nothing on the backup (trap_api) and no mutating base method, leave baseInfos alone. Mutating operations (Proofs/Transparent.v; 41 statements in Props/C03.v; closed for the generic, the documented and the New/NewWithFS layering): after a successful resolution and backup step the operation is the base's own operation on the resolved name; for covered operations the backup step leaves the base view untouched and the operation equals the direct one on a base showing the same view, or fails with the backup's error leaving the base view unchanged; it changes the base view at most at the named entry (C03_affects_only_named); RemoveAll of an absent path returns nil. Names with symlinked parents, D14/D12/K6 and error classes: twin oracle. ",
 "C04": "Proved (Props/C04.v, 21 theorems and 11 examples, HiddenFS over ANY filesystem): every method on every spelling of a name lexically at/below the location is rejected with the world unchanged; listings never reveal it; no BackupFS operation invokes any method of the underlying or the backup filesystem on a hidden name (C04_universal_seal); operations whose resolved name is at/below it do not succeed and mutate nothing underneath; the location is never backed up into itself. Lexical on the resolved name (D9/D17 recorded). Rollback keeps working for everything outside the location, histories that RemoveAll or Rename a parent of it included: C04_rollback_documented_partial and C04_rollback_new_partial (closed theorems for the HiddenFS-inside-PrefixFS layering and for New/NewWithFS) + examples + oracle. ",
 "C08": "Proved (Props/C08.v, 21 theorems, for arbitrary filesystems and every world incl. faults/crash points): taking a backup never invokes a mutating base method; if the backup of any mutating operation fails the operation returns that failure in exactly the world the failed backup left (fail-stop), Rename for each of its two backups, RemoveAll per entry. Props/C08_faults.v (over the laws + fault laws, closed for the three layerings): under every single-fault plan every covered operation keeps the transaction invariant, and a fault on the backup filesystem during a backup-taking operation yields an error with the base view unchanged; afterwards Rollback restores (C09_faults). Multi-fault plans: enumeration (two faults can break the clean-up of a partial copy: the boundary the proof identified). ",
 "C13": "Proved (Props/C13_content.v, over the laws and closed for the three layerings): from any state satisfying the transaction invariant Rollback returns nil and every path not tracked when it starts holds the same entry afterwards. Proved (Props/C13.v, arbitrary filesystems): every call Rollback makes on either filesystem is on a path tracked when it started (guard_api), on the backup only Lstat/Open/Readlink/Remove. What base.RemoveAll/MkdirAll do inside the method is covered by the oracle (foreign entries survive; every entry not tracked when Rollback starts is unchanged by Rollback, also when the transaction put a symlink to it in the place of a tracked path). ",
 "C16": "Proved (Props/C16.v, 37 theorems, concrete model of resolvePathWithInfo over the modelled kernel walk): termination and read-onlyness for every world and name; no fuel exhaustion for any topology within a size bound; under the exclusion of the recorded deviations (D17, K2 - boolean triggers): no symlink among the parents of the result, same entry as the caller's name under the kernel walk (unless the kernel answers ELOOP = recorded finding K8), final component unresolved, missing tail lexical. Relative names (working directory = root) proved as well (C16_relative_*). ",
 "C17": "Proved (Props/C17.v, over the laws): ForceBackup of a resolved non-directory path re-establishes the invariant for the baseline rebased at p, whether it succeeds or fails; after any covered history Rollback returns nil, p is as at the ForceBackup moment, every other path as originally (C17_rollback_after_force_backup). A path that WAS a directory when the transaction began (now absent or a non-directory): Props/C17.v C17_former_directory_*: ForceBackup re-establishes the invariant for the baseline pruned at p; after Rollback p is as at the ForceBackup moment, its former content is not restored, everything outside is as originally. Closed for the three layerings. The two side conditions the proof forced were real defects, D21 and D22, both repaired in the code; the side conditions entry_ok, orig_not_dir_cond and parents_original remain hypotheses of every C17 theorem, the concrete instances included (the laws say nothing about creating below a missing directory). ",
 "C02": "Proved (Props/C02.v): between operations of any covered history every original is intact in the base view or copied at the same backup path and the backup holds nothing else (C02_between_operations_partial); tryBackup never changes the base view. AT EVERY INSTANT (Props/C02_instant.v): with the model's own crash points (the state at instant k = the world in which a run with crash point k halts), every instant of tryBackup, of every covered operation, of every covered history and of Rollback is recoverable: originals intact or exactly copied, the backup holds nothing but copies with at most the one entry being written incomplete; closed for the three layerings (C02_instant_concrete/_documented/_new and the _rollback_ variants). Fault plans and operations outside 'covered' are decided by enumeration. ",
}
_P0 = _PROVED

CLAIMED = {
    # pid: (technique, level text, level note, design ref)
    "C19": ("Coq proof over byte strings + exhaustive differential correspondence (T1)",
            "Theorems in Coq for all byte strings / all duplicate-free lists (order laws, ancestors ordered, sorted permutation unique, IterateDirTree = ancestor chain with early stop); the executable model is tied to the code by exhaustive differential runs up to a length bound plus random long inputs, and an independent oracle is evaluated on the implementation.",
            _PROVED["C19"] + "Trusted: Coq kernel, ExtrOcamlBasic extraction, OCaml driver, Go harness, python orchestrator; filepath.Clean and sort.Sort are modelled (validated by the correspondence).",
            "DESIGN.md section 4 (C19)"),
}

for _pid, _title in [("C05","PrefixFS confinement"),("C14","PrefixFS re-rooting"),("C18","VolumeFS identity (Linux half)"),("C06","HiddenFS inaccessibility"),("C15","HiddenFS transparency"),("C11","HiddenFS listings/recursive operations")]:
    CLAIMED[_pid] = ("Coq proof over the layer model (call transformers) + differential correspondence over a recording stub FS",
        "Theorems in Coq about the executable model of the layer (every method, all path strings); the model is tied to the Go code by differential runs of every method over a recording stub filesystem and by exhaustive runs of the pure helpers; independent oracles are evaluated on the implementation. " + _title + ".",
        _P0.get(_pid, "") + "Trusted: Coq kernel, extraction (ExtrOcamlBasic), OCaml driver, Go harness with recording stub FS, python orchestrator; path/filepath modelled and validated exhaustively to a length bound. Lexical layer: symlinks in the underlying tree are outside this model (see DESIGN.md).",
        "DESIGN.md section 4 (%s)" % _pid)

_BFS = {
 "C01": "Rollback restores the base exactly",
 "C02": "originals recoverable at every primitive-call boundary (crash points)",
 "C03": "BackupFS transparent w.r.t. the base (twin runs)",
 "C04": "backup location sealed off in the documented layerings",
 "C07": "clean slate after Rollback",
 "C08": "failed backup never lets the modification through (fault enumeration)",
 "C09": "Rollback never reports success unless it restored (fault enumeration)",
 "C12": "tracked state survives serialisation and restart",
 "C13": "Rollback stays within the transaction's footprint",
 "C16": "path resolution exact for every symlink topology",
 "C17": "ForceBackup re-baselines a path",
}
for _pid, _title in _BFS.items():
    CLAIMED[_pid] = ("Coq model of BackupFS over a POSIX filesystem model (theorems in Props/%s.v) + differential correspondence on real trees in a chroot (results, trees, primitive-call traces) + implementation oracle" % _pid,
        "Theorems in Coq about the executable Gallina model of BackupFS and its layers over a modelled Linux filesystem (state+error+halt monad ticking once per primitive call); the model is tied to the Go code on every run by running generated histories (with crash points / injected faults where the property quantifies over them) through the real code in a private chroot and through the extracted model, comparing results, whole-tree dumps, tracked state" + (" and (L2) the exact sequence of primitive calls" if _pid in ("C01", "C02", "C08", "C09", "C13") else " (L1)") + "; the property's own oracle is evaluated on the implementation for every case, failing cases are minimised and attributed to recorded findings only by trigger predicates (Gallina booleans evaluated by the model; harness-level predicates for K1, K5, K7). " + _title + ".",
        _PROVED.get(_pid, "") + "Trusted: Coq kernel, extraction (ExtrOcamlBasic), OCaml driver, Go harness (chroot world builder, spy/fault/crash wrappers), python orchestrator (generators, oracles, shrinker). Modelled, validated by correspondence only: Linux VFS as root (errno classes, symlink walk, chown clearing setuid/setgid), os.MkdirAll/RemoveAll/Rename, path/filepath, io.Copy chunking. Where the full statement is false of the faithful model the proved theorem is named _partial; its side conditions (covered, kind_stable, the initial-tree conditions) contain the triggers of the recorded findings (known_findings.json) and are in places wider (e.g. kind_stable also excludes type changes involving a symlink, which the code handles since fix D23).",
        "DESIGN.md section 4 (%s)" % _pid)
CLAIMED["C10"] = ("Coq proof (mutual exclusion => serialisability) + lock table regenerated from the Go AST on every run (kernel re-evaluates lock_discipline) + blocking-spy schedule exploration + race detector",
    "The serialisability theorem is proved once for every interleaving of any number of threads; that the Go methods follow the lock discipline is re-checked on every run on a table regenerated from the source (go/parser); dynamically, operation A is held at each of its primitive calls while B is issued (B must not progress), results are compared with the model's serial run, and a -race stress searches for data races (partial: a model cannot exhibit the Go memory model).",
    _PROVED["C10"] + "Trusted: Coq kernel, srcfacts (AST walker), Go harness, sync.Mutex, the race detector's coverage. The data-race half is labelled partial.",
    "DESIGN.md section 4 (C10)")


def main():
    props = [json.loads(l) for l in open(os.path.join(HERE, "properties.jsonl"))]
    checks = []
    na = []
    for p in props:
        pid = p["id"]
        if pid in CLAIMED:
            tech, text, note, ref = CLAIMED[pid]
            checks.append({
                "property_id": pid,
                "quick_cmd": "./check run %s quick" % pid,
                "thorough_cmd": "./check run %s thorough" % pid,
                "evidence_file": "/verif/evidence/%s.json" % pid,
                "replay_cmd_template": "./check replay {path}",
                "engine": "coq-model+correspondence",
                "level_claimed": {"category": "proof", "text": text, "design_ref": ref},
                "level_note": note,
                "technique": tech,
            })
        else:
            na.append({"property_id": pid, "reason": "not claimed"})
    m = {
        "version": 1,
        "setup_cmd": "./check setup",
        "hooks": {
            "guard": "verif",
            "enable": "go build -tags verif (harness module /verif/harness with replace github.com/jxsl13/backupfs => /repo)",
            "baseline_off_cmd": "cd /repo && GOFLAGS=-mod=mod GOPROXY=off GOSUMDB=off GOTOOLCHAIN=local go test -vet=off -count=1 ./...",
            "source_commits": ["3ea2cf6", "5697ab1"],
            "add_only": True,
        },
        "engines": [
            {"name": "coq-model+correspondence", "path": "/verif/coq", "serves_properties": sorted(CLAIMED),
             "kind_free_text": "Hand-written Gallina model with theorems (Coq 8.16.1), extracted to OCaml (modelrun) and compared with the real Go code (vharness) on generated inputs and histories; python orchestrator ./check"},
        ],
        "checks": checks,
        "not_applicable": na,
        "notes": "All checks rebuild the harness from /repo's working tree with -tags verif, re-check the Coq development (make, full .vo) and the property's Props/<id>.v, run the correspondence streams and the implementation oracles. known_findings.json lists recorded/fixed defects.",
    }
    with open(os.path.join(HERE, "MANIFEST.json"), "w") as f:
        json.dump(m, f, indent=1)
        f.write("\n")

if __name__ == "__main__":
    main()
