#!/usr/bin/env python3
"""Regenerates MANIFEST.json from the table below (kept in one place so it stays valid)."""
import json
import os
import sys

HERE = os.path.dirname(os.path.dirname(os.path.abspath(__file__)))

CLAIMED = {
    # pid: (technique, level text, level note, design ref)
    "C19": ("Coq proof over byte strings + exhaustive differential correspondence (T1)",
            "Theorems in Coq for all byte strings / all duplicate-free lists (order laws, ancestors ordered, sorted permutation unique, IterateDirTree = ancestor chain with early stop); the executable model is tied to the code by exhaustive differential runs up to a length bound plus random long inputs, and an independent oracle is evaluated on the implementation.",
            "Trusted: Coq kernel, ExtrOcamlBasic extraction, OCaml driver, Go harness, python orchestrator; filepath.Clean and sort.Sort are modelled (validated by the correspondence).",
            "DESIGN.md section 4 (C19)"),
}

for _pid, _title in [("C05","PrefixFS confinement"),("C14","PrefixFS re-rooting"),("C18","VolumeFS identity (Linux half)"),("C06","HiddenFS inaccessibility"),("C15","HiddenFS transparency"),("C11","HiddenFS listings/recursive operations")]:
    CLAIMED[_pid] = ("Coq proof over the layer model (call transformers) + differential correspondence over a recording stub FS",
        "Theorems in Coq about the executable model of the layer (every method, all path strings); the model is tied to the Go code by differential runs of every method over a recording stub filesystem and by exhaustive runs of the pure helpers; independent oracles are evaluated on the implementation. " + _title + ".",
        "Trusted: Coq kernel, extraction (ExtrOcamlBasic), OCaml driver, Go harness with recording stub FS, python orchestrator; path/filepath modelled and validated exhaustively to a length bound. Lexical layer: symlinks in the underlying tree are outside this model (see DESIGN.md).",
        "DESIGN.md section 4 (%s)" % _pid)

WIP = {}

def main():
    props = [json.loads(l) for l in open(os.path.join(HERE, "properties.jsonl"))]
    checks = []
    na = []
    for p in props:
        pid = p["id"]
        if pid in CLAIMED:
            tech, text, note, ref = CLAIMED[pid]
            checks.append({
                "property_id": pid,
                "quick_cmd": "./check run %s quick" % pid,
                "thorough_cmd": "./check run %s thorough" % pid,
                "evidence_file": "/verif/evidence/%s.json" % pid,
                "replay_cmd_template": "./check replay {path}",
                "engine": "coq-model+correspondence",
                "level_claimed": {"category": "proof", "text": text, "design_ref": ref},
                "level_note": note,
                "technique": tech,
            })
        else:
            na.append({"property_id": pid, "reason": WIP.get(pid, "check not built yet (work in progress; planned as Coq proof + correspondence, see DESIGN.md section 4)")})
    m = {
        "version": 1,
        "setup_cmd": "./check setup",
        "hooks": {
            "guard": "verif",
            "enable": "go build -tags verif (harness module /verif/harness with replace github.com/jxsl13/backupfs => /repo)",
            "baseline_off_cmd": "cd /repo && GOFLAGS=-mod=mod GOPROXY=off GOSUMDB=off GOTOOLCHAIN=local go test -vet=off -count=1 ./...",
            "source_commits": ["3ea2cf6"],
            "add_only": True,
        },
        "engines": [
            {"name": "coq-model+correspondence", "path": "/verif/coq", "serves_properties": sorted(CLAIMED),
             "kind_free_text": "Hand-written Gallina model with theorems (Coq 8.16.1), extracted to OCaml (modelrun) and compared with the real Go code (vharness) on generated inputs and histories; python orchestrator ./check"},
        ],
        "checks": checks,
        "not_applicable": na,
        "notes": "All checks rebuild the harness from /repo's working tree with -tags verif, re-check the Coq development (make, full .vo) and the property's Props/<id>.v, run the correspondence streams and the implementation oracles. known_findings.json lists recorded/fixed defects.",
    }
    with open(os.path.join(HERE, "MANIFEST.json"), "w") as f:
        json.dump(m, f, indent=1)
        f.write("\n")

if __name__ == "__main__":
    main()
