#!/bin/sh
# regenerate coq/theories/Generated/LockTable.v from /repo's working tree (only rewritten when it changes)
set -e
cd "$(dirname "$0")"
REPO="${VERIF_REPO:-/repo}"
mkdir -p ../build ../coq/theories/Generated
GOFLAGS=-mod=mod GOPROXY=off GOSUMDB=off GOTOOLCHAIN=local go build -o ../build/srcfacts . 
../build/srcfacts "$REPO" ../build/LockTable.v.new
if ! cmp -s ../build/LockTable.v.new ../coq/theories/Generated/LockTable.v; then
  cp ../build/LockTable.v.new ../coq/theories/Generated/LockTable.v
fi
