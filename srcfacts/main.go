// srcfacts reads backupfs*.go from the repository (go/parser, go/ast only)
// and emits coq/theories/Generated/LockTable.v: one record per method of
// *BackupFS describing its locking shape, what it touches, and whom it calls.
// It also emits the struct's field list (C07: baseInfos is the only mutable
// state besides the mutex).
package main

import (
	"fmt"
	"go/ast"
	"go/parser"
	"go/token"
	"os"
	"path/filepath"
	"sort"
	"strings"
)

var mutatingFS = map[string]bool{
	"Create": true, "Mkdir": true, "MkdirAll": true, "OpenFile": true, "Remove": true, "RemoveAll": true,
	"Rename": true, "Chmod": true, "Chown": true, "Chtimes": true, "Symlink": true, "Lchown": true,
}
var readingFS = map[string]bool{"Open": true, "Stat": true, "Lstat": true, "Readlink": true, "Name": true}

type facts struct {
	name          string
	exported      bool
	locks         bool
	shapeUnknown  bool
	touchesInfos  bool
	mutatesFS     bool
	readsFS       bool
	preLockTouch  bool // touches infos / mutates fs before taking the lock
	callees       map[string]bool
}

func isSel(e ast.Expr, recv, field string) bool {
	s, ok := e.(*ast.SelectorExpr)
	if !ok {
		return false
	}
	id, ok := s.X.(*ast.Ident)
	return ok && id.Name == recv && s.Sel.Name == field
}

// fsys.mu.Lock() / fsys.mu.Unlock()
func isMuCall(e ast.Expr, recv, meth string) bool {
	c, ok := e.(*ast.CallExpr)
	if !ok {
		return false
	}
	s, ok := c.Fun.(*ast.SelectorExpr)
	if !ok || s.Sel.Name != meth {
		return false
	}
	return isSel(s.X, recv, "mu")
}

func scan(n ast.Node, recv string, f *facts) (touchInfos, mutFS, readFS bool, callees []string) {
	ast.Inspect(n, func(x ast.Node) bool {
		switch v := x.(type) {
		case *ast.SelectorExpr:
			if isSel(v, recv, "baseInfos") {
				touchInfos = true
			}
		case *ast.CallExpr:
			if s, ok := v.Fun.(*ast.SelectorExpr); ok {
				// fsys.base.M(...) / fsys.backup.M(...)
				if isSel(s.X, recv, "base") || isSel(s.X, recv, "backup") {
					m := s.Sel.Name
					ro := false
					if m == "OpenFile" && len(v.Args) >= 2 {
						if a, ok := v.Args[1].(*ast.SelectorExpr); ok && a.Sel.Name == "O_RDONLY" {
							ro = true
						}
					}
					if mutatingFS[m] && !ro {
						mutFS = true
					} else {
						readFS = true
					}
				}
				// fsys.method(...)
				if id, ok := s.X.(*ast.Ident); ok && id.Name == recv {
					callees = append(callees, s.Sel.Name)
				}
			}
			// helper(fsys.base, ...) : the filesystem escapes into a helper: conservatively mutating
			for _, a := range v.Args {
				if isSel(a, recv, "base") || isSel(a, recv, "backup") {
					mutFS = true
				}
				if id, ok := a.(*ast.Ident); ok && id.Name == recv {
					// fsys itself handed to a helper (resolvePath(fsys, ...)): uses Lstat/Readlink
					readFS = true
				}
			}
		}
		return true
	})
	return
}

func main() {
	repo := "/repo"
	if len(os.Args) > 1 {
		repo = os.Args[1]
	}
	out := os.Args[2]
	fset := token.NewFileSet()
	files, _ := filepath.Glob(filepath.Join(repo, "backupfs*.go"))
	sort.Strings(files)
	var all []*facts
	var fields []string
	for _, fn := range files {
		if strings.HasSuffix(fn, "_test.go") || strings.HasSuffix(fn, "_windows.go") {
			continue
		}
		f, err := parser.ParseFile(fset, fn, nil, 0)
		if err != nil {
			fmt.Fprintln(os.Stderr, err)
			os.Exit(1)
		}
		for _, d := range f.Decls {
			if gd, ok := d.(*ast.GenDecl); ok {
				for _, sp := range gd.Specs {
					if ts, ok := sp.(*ast.TypeSpec); ok && ts.Name.Name == "BackupFS" {
						if st, ok := ts.Type.(*ast.StructType); ok {
							for _, fl := range st.Fields.List {
								for _, n := range fl.Names {
									fields = append(fields, n.Name)
								}
							}
						}
					}
				}
			}
			fd, ok := d.(*ast.FuncDecl)
			if !ok || fd.Recv == nil || len(fd.Recv.List) != 1 || fd.Body == nil {
				continue
			}
			star, ok := fd.Recv.List[0].Type.(*ast.StarExpr)
			if !ok {
				continue
			}
			if id, ok := star.X.(*ast.Ident); !ok || id.Name != "BackupFS" {
				continue
			}
			recv := "_"
			if len(fd.Recv.List[0].Names) == 1 {
				recv = fd.Recv.List[0].Names[0].Name
			}
			fa := &facts{name: fd.Name.Name, exported: fd.Name.IsExported(), callees: map[string]bool{}}
			// locate the top-level Lock statement
			lockAt := -1
			for i, st := range fd.Body.List {
				if es, ok := st.(*ast.ExprStmt); ok && isMuCall(es.X, recv, "Lock") {
					lockAt = i
					break
				}
			}
			// any Lock/Unlock elsewhere (nested, conditional, several) makes the shape unknown
			nLock, nUnlock := 0, 0
			ast.Inspect(fd.Body, func(x ast.Node) bool {
				if c, ok := x.(*ast.CallExpr); ok {
					if isMuCall(c, recv, "Lock") || isMuCall(c, recv, "TryLock") {
						nLock++
					}
					if isMuCall(c, recv, "Unlock") {
						nUnlock++
					}
				}
				return true
			})
			if lockAt >= 0 {
				okShape := nLock == 1 && nUnlock == 1 && lockAt+1 < len(fd.Body.List)
				if okShape {
					ds, ok := fd.Body.List[lockAt+1].(*ast.DeferStmt)
					okShape = ok && isMuCall(ds.Call, recv, "Unlock")
				}
				if okShape {
					fa.locks = true
				} else {
					fa.shapeUnknown = true
				}
				for _, st := range fd.Body.List[:lockAt] {
					ti, mf, _, cs := scan(st, recv, fa)
					if ti || mf || len(cs) > 0 {
						// a deferred error-wrapping closure touches nothing; anything else before the lock counts
						fa.preLockTouch = fa.preLockTouch || ti || mf
						for _, c := range cs {
							fa.callees[c] = true
						}
					}
				}
			} else if nLock+nUnlock > 0 {
				fa.shapeUnknown = true
			}
			ti, mf, rf, cs := scan(fd.Body, recv, fa)
			fa.touchesInfos, fa.mutatesFS, fa.readsFS = ti, mf, rf
			for _, c := range cs {
				fa.callees[c] = true
			}
			all = append(all, fa)
		}
	}
	sort.Slice(all, func(i, j int) bool { return all[i].name < all[j].name })
	var b strings.Builder
	b.WriteString("(* GENERATED by /verif/srcfacts from /repo/backupfs*.go on every run - do not edit. *)\n")
	b.WriteString("From Coq Require Import List String Bool.\nImport ListNotations.\nOpen Scope string_scope.\n\n")
	b.WriteString("Record mfacts := mkFacts {\n  lt_name : string; lt_exported : bool; lt_locks : bool; lt_shape_unknown : bool;\n  lt_touches_infos : bool; lt_mutates_fs : bool; lt_reads_fs : bool; lt_prelock_touch : bool;\n  lt_callees : list string }.\n\n")
	b.WriteString("Definition table : list mfacts := [\n")
	for i, f := range all {
		var cs []string
		for c := range f.callees {
			cs = append(cs, c)
		}
		sort.Strings(cs)
		q := make([]string, len(cs))
		for j, c := range cs {
			q[j] = "\"" + c + "\""
		}
		sep := ";"
		if i == len(all)-1 {
			sep = ""
		}
		fmt.Fprintf(&b, "  mkFacts \"%s\" %v %v %v %v %v %v %v [%s]%s\n", f.name, f.exported, f.locks, f.shapeUnknown,
			f.touchesInfos, f.mutatesFS, f.readsFS, f.preLockTouch, strings.Join(q, "; "), sep)
	}
	b.WriteString("].\n\n")
	sort.Strings(fields)
	q := make([]string, len(fields))
	for j, c := range fields {
		q[j] = "\"" + c + "\""
	}
	fmt.Fprintf(&b, "(* fields of struct BackupFS *)\nDefinition struct_fields : list string := [%s].\n", strings.Join(q, "; "))
	if err := os.WriteFile(out, []byte(b.String()), 0o644); err != nil {
		fmt.Fprintln(os.Stderr, err)
		os.Exit(1)
	}
}
