module verif/srcfacts

go 1.21
