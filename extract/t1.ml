open Model
open Driver_common

let eval (f : string array) : string =
  match f.(0) with
  | "clean" -> encs (clean (decs f.(1)))
  | "join" -> encs (join2 (decs f.(1)) (decs f.(2)))
  | "dir" -> encs (dir (decs f.(1)))
  | "base" -> encs (base (decs f.(1)))
  | "isabs" -> bool_str (is_abs (decs f.(1)))
  | "rel" -> (match rel (decs f.(1)) (decs f.(2)) with
              | None -> "err" | Some r -> "ok " ^ encs r)
  | "less" -> bool_str (less (decs f.(1)) (decs f.(2)))
  | "sortmost" -> enc_list (sort_most (dec_list f.(1)))
  | "sortleast" -> enc_list (sort_least (dec_list f.(1)))
  | "iter" ->
      let k = int_of_string f.(2) in
      let n = ref 0 in
      let v _ = (incr n; !n - 1 <> k) in
      let (l, a) = iterate_dir_tree (decs f.(1)) v in
      enc_list l ^ " " ^ bool_str a
  | _ -> T1_more.eval f

let run inp outp =
  let ic = open_in inp and oc = open_out outp in
  (try
     while true do
       let line = input_line ic in
       if line <> "" then begin
         let f = Array.of_list (String.split_on_char ' ' line) in
         output_string oc (eval f); output_char oc '\n'
       end
     done
   with End_of_file -> ());
  close_in ic; close_out oc
