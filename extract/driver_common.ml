(* Hand-written glue between text case files and the extracted model.
   Trusted: encoding/decoding and printing only. *)
open Model

let rec pos_of_int (i : int) : positive =
  if i = 1 then XH
  else if i land 1 = 0 then XO (pos_of_int (i lsr 1))
  else XI (pos_of_int (i lsr 1))

let n_of_int (i : int) : n = if i = 0 then N0 else Npos (pos_of_int i)

let rec int_of_pos = function
  | XH -> 1
  | XO p -> 2 * int_of_pos p
  | XI p -> 2 * int_of_pos p + 1

let int_of_n = function N0 -> 0 | Npos p -> int_of_pos p

let rec nat_of_int i = if i <= 0 then O else S (nat_of_int (i - 1))
let rec int_of_nat = function O -> 0 | S n -> 1 + int_of_nat n

let z_of_int (i : int) : z =
  if i = 0 then Z0 else if i > 0 then Zpos (pos_of_int i) else Zneg (pos_of_int (-i))
let int_of_z = function Z0 -> 0 | Zpos p -> int_of_pos p | Zneg p -> - (int_of_pos p)

let str_of_string (s : string) : n list =
  List.init (String.length s) (fun i -> n_of_int (Char.code s.[i]))

let string_of_str (l : n list) : string =
  let b = Buffer.create 16 in
  List.iter (fun c -> Buffer.add_char b (Char.chr ((int_of_n c) land 255))) l;
  Buffer.contents b

let is_plain c =
  (c >= 'a' && c <= 'z') || (c >= 'A' && c <= 'Z') || (c >= '0' && c <= '9')
  || c = '.' || c = '_' || c = '/' || c = '-'

let enc (s : string) : string =
  if s = "" then "%e" else begin
    let b = Buffer.create (String.length s) in
    String.iter (fun c ->
      if is_plain c then Buffer.add_char b c
      else Buffer.add_string b (Printf.sprintf "%%%02X" (Char.code c))) s;
    Buffer.contents b
  end

let dec (s : string) : string =
  if s = "%e" then "" else begin
    let b = Buffer.create (String.length s) in
    let n = String.length s in
    let i = ref 0 in
    while !i < n do
      if s.[!i] = '%' && !i + 2 < n then begin
        Buffer.add_char b (Char.chr (int_of_string ("0x" ^ String.sub s (!i + 1) 2)));
        i := !i + 3
      end else begin
        Buffer.add_char b s.[!i];
        incr i
      end
    done;
    Buffer.contents b
  end

let encs (l : n list) = enc (string_of_str l)
let decs (s : string) = str_of_string (dec s)

let enc_list (l : n list list) =
  if l = [] then "%n" else String.concat "," (List.map encs l)
let dec_list (s : string) : n list list =
  if s = "%n" then [] else List.map decs (String.split_on_char ',' s)

let bool_str b = if b then "t" else "f"
