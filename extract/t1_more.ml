let eval (_ : string array) : string = "unknown-function"
