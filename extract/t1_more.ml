open Model
open Driver_common

let meth_of_string = function
  | "create" -> MCreate | "mkdir" -> MMkdir | "mkdirall" -> MMkdirAll | "open" -> MOpen
  | "openfile" -> MOpenFile | "remove" -> MRemove | "removeall" -> MRemoveAll
  | "rename" -> MRename | "stat" -> MStat | "chmod" -> MChmod | "chown" -> MChown
  | "chtimes" -> MChtimes | "lstat" -> MLstat | "symlink" -> MSymlink
  | "readlink" -> MReadlink | "lchown" -> MLchown
  | s -> failwith ("bad meth " ^ s)

let string_of_meth = function
  | MCreate -> "create" | MMkdir -> "mkdir" | MMkdirAll -> "mkdirall" | MOpen -> "open"
  | MOpenFile -> "openfile" | MRemove -> "remove" | MRemoveAll -> "removeall"
  | MRename -> "rename" | MStat -> "stat" | MChmod -> "chmod" | MChown -> "chown"
  | MChtimes -> "chtimes" | MLstat -> "lstat" | MSymlink -> "symlink"
  | MReadlink -> "readlink" | MLchown -> "lchown"

let errclass_str = function
  | EPERM -> "EPERM" | EHiddenNotExist -> "HiddenNotExist"
  | EHiddenPerm -> "HiddenPermission" | EHiddenCheck -> "HiddenCheckFailed"

let parse_aux s =
  if s = "-" || s = "" then [] else List.map (fun x -> z_of_int (int_of_string x)) (String.split_on_char ',' s)
let aux_str l = if l = [] then "-" else String.concat "," (List.map (fun z -> string_of_int (int_of_z z)) l)

let optb = function None -> "err" | Some b -> bool_str b

let layer (f : string array) : string =
  let kind = f.(1) in
  let m = meth_of_string f.(3) in
  let c = { c_meth = m; c_a = decs f.(4); c_b = (match m with MRename | MSymlink -> decs f.(5) | _ -> []); c_aux = parse_aux f.(6) } in
  let stub = decs f.(7) in
  let (out, reported) =
    match kind with
    | "prefix" ->
        let pfx = clean (decs f.(2)) in
        let o = prefixfs_call pfx c in
        (o, (fun (c' : call) -> match m with
              | MCreate | MOpen | MOpenFile -> "name=" ^ encs (prefixfs_file_name pfx c'.c_a)
              | MStat | MLstat -> "finame=" ^ encs (prefixfs_info_name pfx c'.c_a)
              | MReadlink -> "link=" ^ encs (prefixfs_readlink_result pfx stub)
              | _ -> "-"))
    | "volume" ->
        let o = volumefs_call c in
        (o, (fun (c' : call) -> match m with
              | MCreate | MOpen | MOpenFile -> "name=" ^ encs c'.c_a
              | MStat | MLstat -> "finame=" ^ encs (base c'.c_a)
              | MReadlink -> "link=" ^ encs (volumefs_readlink_result stub)
              | _ -> "-"))
    | "hidden" ->
        let hs = hidden_norm (dec_list f.(2)) in
        let o = hiddenfs_call hs c in
        (o, (fun (c' : call) -> match m with
              | MCreate | MOpen | MOpenFile -> "name=" ^ encs c'.c_a
              | MStat | MLstat -> "finame=" ^ encs (base c'.c_a)
              | MReadlink -> "link=" ^ encs stub
              | _ -> "-"))
    | _ -> failwith "bad kind"
  in
  match out with
  | Rej e -> "rej " ^ errclass_str e
  | Multi -> "multi"
  | Fwd c' ->
      Printf.sprintf "fwd %s %s %s %s %s" (string_of_meth c'.c_meth) (encs c'.c_a) (encs c'.c_b) (aux_str c'.c_aux) (reported c')

let eval (f : string array) : string =
  match f.(0) with
  | "prefixpath" ->
      (match prefix_path (clean (decs f.(1))) (decs f.(2)) with
       | None -> "err EPERM" | Some r -> "ok " ^ encs r)
  | "prefixclean" -> encs (clean (decs f.(1)))
  | "volpath" -> "ok " ^ encs (clean (decs f.(2))) ^ " %e"
  | "hiddenctor" -> enc_list (hidden_norm (dec_list f.(1)))
  | "ishidden" -> optb (is_hidden (decs f.(1)) (dec_list f.(2)))
  | "parenthidden" -> optb (is_parent_of_hidden (decs f.(1)) (dec_list f.(2)))
  | "dircontains" -> optb (dir_contains (decs f.(1)) (decs f.(2)))
  | "toabssymlink" -> encs (to_abs_symlink (decs f.(1)) (decs f.(2)))
  | "bisabs" -> bool_str (is_abs (decs f.(1)))
  | "hlist" ->
      let hs = hidden_norm (dec_list f.(2)) in
      let counts = List.map (fun x -> z_of_int (int_of_string x)) (String.split_on_char ',' f.(4)) in
      let rs = hidden_list_calls (decs f.(1)) hs counts (dec_list f.(3)) in
      String.concat " " (List.map (function
        | LOk l -> "ok:" ^ enc_list l | LEof l -> "eof:" ^ enc_list l | LErr -> "err") rs)
  | "layer" -> layer f
  | _ -> "unknown-function"
