let () =
  match Array.to_list Sys.argv with
  | [_; "t1"; inp; outp] -> T1.run inp outp
  | [_; "t2"; inp; outp] -> T2.run inp outp
  | _ -> prerr_endline "usage: modelrun t1 <in> <out>"; exit 2
