(* T2: run history case files against the extracted model and print the same
   observation format as the Go harness. *)
open Model
open Driver_common

let n_of_string s = n_of_int (int_of_string s)
let n_of_octal s = n_of_int (int_of_string ("0o" ^ s))

let parse_content (spec : string) : n list =
  if spec = "-" || spec = "" then [] else
  List.concat_map (fun part ->
    if part = "" then [] else
    match part.[0] with
    | 'R' ->
        (match String.split_on_char 'x' (String.sub part 1 (String.length part - 1)) with
         | [b; n] -> List.init (int_of_string n) (fun _ -> n_of_int (int_of_string b))
         | _ -> failwith "bad R spec")
    | 'B' -> decs (String.sub part 1 (String.length part - 1))
    | _ -> failwith "bad content spec") (String.split_on_char '+' spec)

let rle (l : n list) : string =
  if l = [] then "-" else begin
    let b = Buffer.create 64 in
    let rec go cur cnt = function
      | [] -> if Buffer.length b > 0 then Buffer.add_char b ',';
              Buffer.add_string b (Printf.sprintf "%d*%d" cur cnt)
      | x :: r -> let x = int_of_n x in
                  if x = cur then go cur (cnt + 1) r
                  else begin
                    if Buffer.length b > 0 then Buffer.add_char b ',';
                    Buffer.add_string b (Printf.sprintf "%d*%d" cur cnt);
                    go x 1 r
                  end in
    (match l with x :: r -> go (int_of_n x) 1 r | [] -> ());
    Buffer.contents b
  end

let errclass_name = function
  | EPERM -> "EPERM" | EHiddenNotExist -> "HiddenNotExist"
  | EHiddenPerm -> "HiddenPermission" | EHiddenCheck -> "HiddenCheckFailed"

let errno_name = function
  | ENOENT -> "ENOENT" | EEXIST -> "EEXIST" | ENOTDIR -> "ENOTDIR" | EISDIR -> "EISDIR"
  | ENOTEMPTY -> "ENOTEMPTY" | EINVAL -> "EINVAL" | ELOOP -> "ELOOP" | EBUSY -> "EBUSY"
  | EIO -> "EIO" | EBADF -> "EBADF" | ELayer e -> errclass_name e
  | EBadInfo -> "Other" | ERollback -> "RollbackFailed" | EOther -> "Other" | EFUEL -> "FUEL"

let mt_token = function Preset n -> "P" ^ string_of_int (int_of_n n) | Now _ -> "NOW"

let kind_char = function KDir -> "D" | KFile -> "F" | KLink -> "L"

let info_str (fi : finfo) : string =
  let k = kind_char fi.fi_kind in
  let size = match fi.fi_kind with KDir -> "-" | _ -> string_of_int (int_of_n fi.fi_size) in
  let mt = match fi.fi_kind with KLink -> "-" | _ -> mt_token fi.fi_mt in
  Printf.sprintf "%s %s %o %d %d %s %s" (encs fi.fi_name) k (int_of_n fi.fi_perm)
    (int_of_z fi.fi_uid) (int_of_z fi.fi_gid) mt size

let key_path (k : n list list) : string =
  "/" ^ String.concat "/" (List.map string_of_str k)

let pmeth_name = function
  | PM m -> T1_more.string_of_meth m
  | PRead -> "read" | PWrite -> "write" | PClose -> "close" | PHStat -> "hstat"
  | PReaddirnames -> "readdirnames"

let pmeth_of_string = function
  | "read" -> PRead | "write" -> PWrite | "close" -> PClose | "hstat" -> PHStat
  | "readdirnames" -> PReaddirnames | s -> PM (T1_more.meth_of_string s)

let dump_world oc label (w : world) =
  let lines = List.map (fun (k, nd) ->
    let p = key_path k in
    match nd with
    | Dir m -> Printf.sprintf "S %s %s D %o %d %d %s -" label (enc p) (int_of_n m.m_perm) (int_of_n m.m_uid) (int_of_n m.m_gid) (mt_token m.m_mt)
    | File (m, c) -> Printf.sprintf "S %s %s F %o %d %d %s %s" label (enc p) (int_of_n m.m_perm) (int_of_n m.m_uid) (int_of_n m.m_gid) (mt_token m.m_mt) (rle c)
    | Link (m, t) -> Printf.sprintf "S %s %s L %o %d %d - %s" label (enc p) (int_of_n m.m_perm) (int_of_n m.m_uid) (int_of_n m.m_gid) (encs t))
    (dump_fs w) in
  List.iter (fun l -> output_string oc l; output_char oc '\n') (List.sort compare lines)

let dump_map oc label (w : world) =
  let lines = List.map (fun (p, v) ->
    match v with
    | None -> Printf.sprintf "M %s %s nil" label (encs p)
    | Some fi -> Printf.sprintf "M %s %s %s" label (encs p) (info_str fi)) (dump_infos w) in
  List.iter (fun l -> output_string oc l; output_char oc '\n') (List.sort compare lines)

type case = {
  mutable id : string;
  mutable cfg : (string * string) list;
  mutable inits : string array list;
  mutable ops : string array list;
  mutable faults : fault list;
  mutable crash : int;
}

let z_of_string s = z_of_int (int_of_string s)

let parse_op (f : string array) : op option =
  let a i = decs f.(i) in
  match f.(0) with
  | "create" -> Some (OCreate (a 1, parse_content f.(2)))
  | "openwrite" -> Some (OOpenWrite (a 1, n_of_string f.(2), n_of_octal f.(3), parse_content f.(4)))
  | "mkdir" -> Some (OMkdir (a 1, n_of_octal f.(2)))
  | "mkdirall" -> Some (OMkdirAll (a 1, n_of_octal f.(2)))
  | "remove" -> Some (ORemove (a 1))
  | "removeall" -> Some (ORemoveAll (a 1))
  | "rename" -> Some (ORename (a 1, a 2))
  | "symlink" -> Some (OSymlink (a 1, a 2))
  | "chmod" -> Some (OChmod (a 1, n_of_octal f.(2)))
  | "chown" -> Some (OChown (a 1, z_of_string f.(2), z_of_string f.(3)))
  | "lchown" -> Some (OLchown (a 1, z_of_string f.(2), z_of_string f.(3)))
  | "chtimes" -> Some (OChtimes (a 1, n_of_string f.(2)))
  | "stat" -> Some (OStat (a 1))
  | "lstat" -> Some (OLstat (a 1))
  | "readlink" -> Some (OReadlink (a 1))
  | "read" -> Some (ORead (a 1))
  | "readdir" -> Some (OReaddir (a 1))
  | "forcebackup" -> Some (OForceBackup (a 1))
  | "realpath" -> Some (ORealPath (a 1))
  | "rollback" -> Some ORollback
  | "persist" -> Some OPersist
  | "extwrite" -> Some (OExtWrite (a 1, parse_content f.(2)))
  | "extmkdirall" -> Some (OExtMkdirAll (a 1))
  | "extremoveall" -> Some (OExtRemoveAll (a 1))
  | "extsymlink" -> Some (OExtSymlink (a 1, a 2))
  | "dump" -> None
  | s -> failwith ("unknown op " ^ s)

let config_of (cfg : (string * string) list) : config =
  let get k = try List.assoc k cfg with Not_found -> "-" in
  let q = decs (get "q") in
  match get "ctor" with
  | "new" | "newwithfs" | "readme" -> { c_prefix = None; c_hidden = [q]; c_backup = q }
  | _ ->
      let p = get "p" in
      let hs = get "hs" in
      { c_prefix = (if p = "-" then None else Some (decs p));
        c_hidden = (if hs = "-" then [] else dec_list hs);
        c_backup = q }

let run_case oc (c : case) =
  Printf.fprintf oc "CASE %s\n" c.id;
  let w = ref init_world in
  List.iter (fun (f : string array) ->
    let p = decs f.(1) in
    match f.(0) with
    | "D" -> w := init_dir !w p (n_of_octal f.(2)) (n_of_string f.(3)) (n_of_string f.(4)) (n_of_string f.(5))
    | "F" -> w := init_file !w p (n_of_octal f.(2)) (n_of_string f.(3)) (n_of_string f.(4)) (n_of_string f.(5)) (parse_content f.(6))
    | "L" -> w := init_link !w p (n_of_string f.(2)) (n_of_string f.(3)) (n_of_string f.(4)) (decs f.(5))
    | _ -> ()) (List.rev c.inits);
  w := with_faults !w (List.rev c.faults);
  w := with_crash !w (if c.crash < 0 then None else Some (n_of_int c.crash));
  let cfg = config_of c.cfg in
  let base = cfg_base cfg and backup = cfg_backup cfg in
  let direct = (try List.assoc "direct" c.cfg = "1" with Not_found -> false) in
  let dbase = cfg_base_unspied cfg in
  let halted = ref false in
  List.iteri (fun i (f : string array) ->
    if not !halted then
      match parse_op f with
      | None -> dump_world oc (string_of_int i) !w; dump_map oc (string_of_int i) !w
      | Some o ->
          List.iter (fun t -> Printf.fprintf oc "F %d %s\n" i (match t with
            | TrFollowFinalLink -> "follows_final_symlink" | TrRenameNonEmptyDir -> "renames_nonempty_dir"
            | TrTypeChange -> "type_change" | TrUncleanLinkTarget -> "unclean_link_target"
            | TrLinkThroughLink -> "link_target_through_link" | TrClimbingLink -> "link_climbs_above_root"
            | TrDanglingParent -> "dangling_symlink_parent"
            | TrRelativeName -> "relative_name"
            | TrHiddenViaLink -> "hidden_reached_via_symlink"
            | TrForceNewParent -> "forcebackup_below_new_directory"
            | TrHopLimit -> "symlink_hop_limit"
            | TrRemovesRoot -> "removes_view_root"))
            (triggers cfg o !w);
          let before = List.length (dump_trace !w) in
          let (r, w') = if direct then step_direct dbase o !w else step base backup o !w in
          w := w';
          (match r with
           | MHalt -> halted := true; Printf.fprintf oc "R %d halt\n" i
           | MErr e -> Printf.fprintf oc "R %d err:%s\n" i (errno_name e)
           | MOk ob ->
               (match ob with
                | ObUnit -> Printf.fprintf oc "R %d ok\n" i
                | ObInfo fi -> Printf.fprintf oc "R %d ok %s\n" i (info_str fi)
                | ObStr s -> Printf.fprintf oc "R %d ok %s\n" i (encs s)
                | ObData d -> Printf.fprintf oc "R %d ok %s\n" i (rle d)
                | ObNames l -> Printf.fprintf oc "R %d ok %s\n" i (enc_list l)));
          let tr = dump_trace !w in
          List.iteri (fun j (t : tcall) ->
            if j >= before then
              Printf.fprintf oc "T %d %s %s %s %s -> %s\n" i
                (match t.t_fs with TBase -> "base" | TBackup -> "backup")
                (pmeth_name t.t_meth) (encs t.t_path) (encs t.t_path2)
                (match t.t_err with None -> "ok" | Some e -> errno_name e)) tr)
    (List.rev c.ops);
  dump_world oc "final" !w;
  if not !halted then dump_map oc "final" !w;
  output_string oc "END\n"

let run inp outp =
  let ic = open_in inp and oc = open_out outp in
  let cur = ref None in
  (try
     while true do
       let line = input_line ic in
       if line <> "" && line.[0] <> '#' then begin
         let f = Array.of_list (String.split_on_char ' ' line) in
         match f.(0) with
         | "CASE" -> cur := Some { id = f.(1); cfg = []; inits = []; ops = []; faults = []; crash = -1 }
         | "CFG" ->
             (match !cur with Some c ->
                c.cfg <- List.filter_map (fun kv ->
                  match String.index_opt kv '=' with
                  | Some i -> Some (String.sub kv 0 i, String.sub kv (i + 1) (String.length kv - i - 1))
                  | None -> None) (List.tl (Array.to_list f))
              | None -> ())
         | "D" | "F" | "L" -> (match !cur with Some c -> c.inits <- f :: c.inits | None -> ())
         | "FAULT" ->
             (match !cur with Some c ->
                c.faults <- { f_fs = (if f.(1) = "base" then TBase else TBackup);
                              f_meth = pmeth_of_string f.(2); f_path = decs f.(3);
                              f_occ = n_of_int (int_of_string f.(4)) } :: c.faults
              | None -> ())
         | "CRASH" -> (match !cur with Some c -> c.crash <- int_of_string f.(1) | None -> ())
         | "OP" -> (match !cur with Some c -> c.ops <- (Array.sub f 1 (Array.length f - 1)) :: c.ops | None -> ())
         | "END" -> (match !cur with Some c -> run_case oc c; cur := None | None -> ())
         | _ -> ()
       end
     done
   with End_of_file -> ());
  close_in ic; close_out oc
