#!/bin/sh
# Build the extracted model + driver into /verif/build/modelrun
set -e
cd "$(dirname "$0")"
timeout 600 coqc -Q ../coq/theories BFS Extract.v >/dev/null
mkdir -p ../build
ocamlfind ocamlopt -O2 -w -a model.mli model.ml driver_common.ml t1_more.ml t1.ml t2.ml modelrun.ml -o ../build/modelrun 2>/dev/null \
 || ocamlfind ocamlopt -w -a model.mli model.ml driver_common.ml t1_more.ml t1.ml t2.ml modelrun.ml -o ../build/modelrun
