(* Extraction of the executable model to OCaml.  ExtrOcamlBasic only: bool,
   option, unit, list, prod, sumbool, sumor map to OCaml's own types; N,
   positive, Z, nat stay inductive datatypes.  No Extract Constant of ours. *)
From Coq Require Import ExtrOcamlBasic.
From BFS Require Import Base.Bytes Path.GoPath Path.Iterate Sort.Order Layers.Call Layers.HiddenList Backup.History Backup.Triggers.
Extraction Language OCaml.
Extraction "model.ml"
  str_eqb clean join2 dir GoPath.base is_abs rel
  less sort_most sort_least sort_strings
  iterate_dir_tree cands chain
  prefix_path prefixfs_call prefixfs_readlink_result prefixfs_file_name prefixfs_info_name
  volumefs_call volumefs_readlink_result hiddenfs_call hidden_norm
  is_hidden is_parent_of_hidden dir_contains to_abs_symlink hidden_list_calls
  step step_direct cfg_base_unspied cfg_base cfg_backup init_world init_dir init_file init_link with_crash with_faults
  dump_fs dump_infos dump_trace mkConfig mkFault triggers.
