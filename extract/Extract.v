(* Extraction of the executable model to OCaml.  ExtrOcamlBasic only: bool,
   option, unit, list, prod, sumbool, sumor map to OCaml's own types; N,
   positive, Z, nat stay inductive datatypes.  No Extract Constant of ours. *)
From Coq Require Import ExtrOcamlBasic.
From BFS Require Import Base.Bytes Path.GoPath Path.Iterate Sort.Order.
Extraction Language OCaml.
Extraction "model.ml"
  str_eqb clean join2 dir base is_abs rel
  less sort_most sort_least sort_strings
  iterate_dir_tree cands chain.
